"""Helpers shared by the C14/C15/C16/C19 rule modules (defines no rules; the
name does not start with "c", so check.py never loads it as a property).

What is here exists to make rules follow the *semantics* of a construct when a
behaviour-preserving refactoring moves it around:

* `inline_local_calls`   source-level inlining of calls to module-local helper
                         functions (statement calls, `x = f(..)`, tail calls),
                         so that a rule written for one function body also
                         reads the body after "extract function";
* `bool_formula` & co.   a boolean predicate (expression, or a helper function
                         written as guard clauses / early returns) as a formula
                         over opaque atoms that can be evaluated on every truth
                         assignment: `A or B or (C and D)` and
                         `if A or B: return True; if not C: return False;
                         return D` are the same function;
* `local_mro`/`find_method`  method lookup through module-local base classes
                         (C3), refusing when a non-local base could define it;
* `resolve_aliases`      once-bound local aliases of attribute paths
                         (`xs = self._xs`) substituted back;
* `local_callees`        module-local functions reachable from a function.

Everything refuses (returns None / raises NotInlinable internally, leaving the
call untouched) instead of guessing; callers then report AnalysisError as they
did before when the construct they need is not found.
"""
from __future__ import annotations

import ast
import copy
import itertools

from sa.core import AnalysisError
from sa.pyindex import dotted, src

_FUNCS = (ast.FunctionDef, ast.AsyncFunctionDef)
_SCOPES = (ast.FunctionDef, ast.AsyncFunctionDef, ast.Lambda, ast.ClassDef)


# -- small tree utilities -----------------------------------------------------------

def parent_map(root):
  out = {}
  for n in ast.walk(root):
    for c in ast.iter_child_nodes(n):
      out[c] = n
  return out


def enclosing_stmt(parent, node):
  while node is not None and not isinstance(node, ast.stmt):
    node = parent.get(node)
  return node


def walk_scope(node):
  """ast.walk below `node` without entering nested def/lambda/class bodies."""
  todo = list(ast.iter_child_nodes(node))
  while todo:
    n = todo.pop()
    yield n
    if isinstance(n, _SCOPES):
      continue
    todo.extend(ast.iter_child_nodes(n))


def bound_names(fn):
  """Names bound anywhere inside fn (stores, comprehension/lambda/def params
  of nested scopes included: used for collision checks, so more is safer)."""
  out = set()
  for n in ast.walk(fn):
    if isinstance(n, ast.Name) and isinstance(n.ctx, (ast.Store, ast.Del)):
      out.add(n.id)
    elif isinstance(n, ast.arg) and n is not None:
      out.add(n.arg)
    elif isinstance(n, _FUNCS + (ast.ClassDef,)) and n is not fn:
      out.add(n.name)
    elif isinstance(n, ast.ExceptHandler) and n.name:
      out.add(n.name)
    elif isinstance(n, (ast.Import, ast.ImportFrom)):
      for a in n.names:
        out.add(a.asname or a.name.split(".")[0])
    elif isinstance(n, (ast.Global, ast.Nonlocal)):
      out.update(n.names)
  return out


def all_names(fn):
  return {n.id for n in ast.walk(fn) if isinstance(n, ast.Name)} | bound_names(fn)


def params_of(fn):
  a = fn.args
  return [p.arg for p in a.posonlyargs + a.args]


# -- module-local classes ------------------------------------------------------------

def local_mro(mod, clsname):
  """C3 linearisation over the classes of `mod`.  Bases that are not classes
  of the module appear as opaque entries "?<source>" (`object` is dropped)."""
  memo = {}

  def lin(name, stack=()):
    if name in memo:
      return memo[name]
    if name in stack:
      raise AnalysisError(f"{mod.rel}: inheritance cycle through {name}")
    node = mod.classes[name]
    seqs = []
    direct = []
    for b in node.bases:
      d = dotted(b)
      if d == "object":
        continue
      if d in mod.classes and d != name:
        direct.append(d)
        seqs.append(list(lin(d, stack + (name,))))
      else:
        tok = "?" + src(b)
        direct.append(tok)
        seqs.append([tok])
    seqs.append(list(direct))
    out = [name]
    while any(seqs):
      for s in seqs:
        if not s:
          continue
        cand = s[0]
        if not any(cand in t[1:] for t in seqs):
          break
      else:
        raise AnalysisError(f"{mod.rel}: no consistent MRO for {name}")
      out.append(cand)
      for s in seqs:
        if s and s[0] == cand:
          del s[0]
    memo[name] = out
    return out

  if clsname not in mod.classes:
    raise AnalysisError(f"anchor class {clsname} not found in {mod.rel}")
  return lin(clsname)


def find_method(mod, clsname, meth, missing_ok=False):
  """(defining class name, def node) of `clsname().meth` through the local MRO.

  AnalysisError when a non-local base precedes the first local definition (it
  could define the method) or when no local class defines it."""
  for k in local_mro(mod, clsname):
    if k.startswith("?"):
      if missing_ok:
        return None
      raise AnalysisError(
          f"anchor {clsname}.{meth} not found in {mod.rel} before the non-local "
          f"base {k[1:]}, which may define it")
    hit = None
    for st in mod.classes[k].body:
      if isinstance(st, _FUNCS) and st.name == meth:
        hit = st  # last definition wins, as at run time
    if hit is not None:
      return k, hit
  if missing_ok:
    return None
  raise AnalysisError(f"anchor {clsname}.{meth} not found in {mod.rel}")


def method(mod, clsname, meth):
  return find_method(mod, clsname, meth)[1]


def class_of(mod, fn):
  """Name of the module-level class whose body directly holds `fn`, or None."""
  par = mod.parent.get(fn)
  if isinstance(par, ast.ClassDef) and mod.classes.get(par.name) is par:
    return par.name
  return None


# -- callee resolution ---------------------------------------------------------------

def callee_of(mod, call, cls=None, within=None):
  """The module-local def a call certainly reaches: `f(..)` for a module-level
  function that is bound exactly once in the module and not shadowed by a
  local / parameter of the calling function `within`, or `self.m(..)` resolved
  through the local MRO of `cls`.  None otherwise."""
  f = call.func
  if isinstance(f, ast.Name) and within is not None and f.id in bound_names(within):
    return None
  if isinstance(f, ast.Attribute) and isinstance(f.value, ast.Name) and f.value.id == "self" \
      and within is not None and (
          "self" not in params_of(within)[:1] or any(
              isinstance(n, ast.Name) and n.id == "self" and isinstance(n.ctx, ast.Store)
              for n in ast.walk(within))):
    return None
  if isinstance(f, ast.Name) and f.id in mod.functions:
    stores = [n for n in ast.walk(mod.tree) if isinstance(n, ast.Name)
              and n.id == f.id and isinstance(n.ctx, ast.Store)]
    defs = [n for n in ast.walk(mod.tree) if isinstance(n, _FUNCS + (ast.ClassDef,))
            and n.name == f.id]
    if stores or len(defs) != 1:
      return None
    return mod.functions[f.id]
  if cls is not None and isinstance(f, ast.Attribute) and isinstance(f.value, ast.Name) \
      and f.value.id == "self":
    try:
      hit = find_method(mod, cls, f.attr, missing_ok=True)
    except AnalysisError:
      return None
    return hit[1] if hit else None
  return None


def local_callees(mod, fn, depth=2, cls=None):
  """fn plus the module-local functions it (transitively, `depth` levels) calls,
  in discovery order, without duplicates."""
  out = [fn]
  frontier = [fn]
  for _ in range(depth):
    nxt = []
    for f in frontier:
      for n in ast.walk(f):
        if isinstance(n, ast.Call):
          c = callee_of(mod, n, cls, within=f)
          if c is not None and c not in out:
            out.append(c)
            nxt.append(c)
    frontier = nxt
  return out


# -- inlining ------------------------------------------------------------------------

class NotInlinable(Exception):
  pass


class _Renamer(ast.NodeTransformer):
  def __init__(self, names):
    self.names = names

  def visit_Name(self, node):
    if node.id in self.names:
      return ast.copy_location(ast.Name(id=self.names[node.id], ctx=node.ctx), node)
    return node

  def visit_arg(self, node):
    if node.arg in self.names:
      node.arg = self.names[node.arg]
    return node


def _bind(callee, call, is_method, lenient=False):
  """param name -> argument expression (defaults filled in).

  A default that is not a constant cannot be substituted at the call site (it
  is evaluated once, when the def is executed): NotInlinable, unless the
  caller only wants to know which argument reaches which parameter
  (`lenient`: the default expression itself is returned)."""
  a = callee.args
  if a.vararg or a.kwarg or any(isinstance(x, ast.Starred) for x in call.args) \
      or any(k.arg is None for k in call.keywords):
    raise NotInlinable("star arguments")
  pos = [p.arg for p in a.posonlyargs + a.args]
  bound = {}
  if is_method:
    if not pos:
      raise NotInlinable("method without self")
    bound[pos[0]] = call.func.value
    pos = pos[1:]
  if len(call.args) > len(pos):
    raise NotInlinable("too many arguments")
  for p, v in zip(pos, call.args):
    bound[p] = v
  names = set(pos) | {p.arg for p in a.kwonlyargs}
  for k in call.keywords:
    if k.arg not in names or k.arg in bound:
      raise NotInlinable("keyword mismatch")
    bound[k.arg] = k.value
  allp = a.posonlyargs + a.args
  for p, d in zip(allp[len(allp) - len(a.defaults):], a.defaults):
    if p.arg not in bound:
      if not isinstance(d, ast.Constant) and not lenient:
        raise NotInlinable("non-constant default")
      bound[p.arg] = d
  for p, d in zip(a.kwonlyargs, a.kw_defaults):
    if p.arg not in bound:
      if not isinstance(d, ast.Constant) and not lenient:
        raise NotInlinable("non-constant default")
      bound[p.arg] = d
  order = [p.arg for p in a.posonlyargs + a.args + a.kwonlyargs]
  if set(order) - set(bound):
    raise NotInlinable("missing argument")
  return [(p, bound[p]) for p in order]


def _returns(callee):
  return [n for n in walk_scope(callee) if isinstance(n, ast.Return)]


def _expand(mod, callee, call, caller_names, is_method, mode, target=None):
  """Statements equivalent to the call.  mode: 'expr' (value dropped),
  'assign' (value bound to `target`), 'tail' (`return f(..)`)."""
  if not isinstance(callee, ast.FunctionDef) or callee.decorator_list:
    raise NotInlinable("decorated / async")
  if any(isinstance(n, (ast.Yield, ast.YieldFrom, ast.Await, ast.Global, ast.Nonlocal))
         for n in walk_scope(callee)):
    raise NotInlinable("generator / global")
  if any(isinstance(n, ast.Call) and callee_name(n) == callee.name for n in ast.walk(callee)):
    raise NotInlinable("recursive")
  rets = _returns(callee)
  body = list(callee.body)
  if body and isinstance(body[0], ast.Expr) and isinstance(body[0].value, ast.Constant) \
      and isinstance(body[0].value.value, str):
    body = body[1:]
  if mode == "expr":
    if any(r.value is not None for r in rets):
      raise NotInlinable("returns a value that the caller drops")
    if rets and not (len(rets) == 1 and body and body[-1] is rets[0]):
      raise NotInlinable("early return")
    if rets:
      body = body[:-1]
    tail = []
  elif mode == "assign":
    if not (len(rets) == 1 and body and body[-1] is rets[0] and rets[0].value is not None):
      raise NotInlinable("not a single trailing return")
    tail = [rets[0].value]
    body = body[:-1]
  else:
    tail = []
  pairs = _bind(callee, call, is_method)
  stored = {n.id for n in ast.walk(callee)
            if isinstance(n, ast.Name) and isinstance(n.ctx, (ast.Store, ast.Del))}
  inner_bound = bound_names(callee) - {p for p, _ in pairs}
  # nested scopes re-binding a parameter name would be captured by a rename
  nested_params = set()
  for n in ast.walk(callee):
    if n is not callee and isinstance(n, _FUNCS + (ast.Lambda,)):
      nested_params |= {x.arg for x in ast.walk(n.args) if isinstance(x, ast.arg)}
  rename = {}
  prelude = []
  taken = set(caller_names)
  for p, v in pairs:
    if isinstance(v, ast.Name) and p not in stored and p not in nested_params \
        and (v.id == p or v.id not in inner_bound):
      rename[p] = v.id
      continue
    new = p
    if new in taken or new in rename.values():
      new = f"{callee.name}__{p}"
    rename[p] = new
    taken.add(new)
    prelude.append(ast.copy_location(
        ast.Assign(targets=[ast.Name(id=new, ctx=ast.Store())],
                   value=copy.deepcopy(v), lineno=call.lineno), call))
  for nm in sorted(inner_bound):
    if nm in rename:
      continue
    if nm in taken or nm in rename.values():
      rename[nm] = f"{callee.name}__{nm}"
  rn = _Renamer(rename)
  new_body = [rn.visit(copy.deepcopy(s)) for s in body]
  out = prelude + new_body
  if mode == "assign":
    val = rn.visit(copy.deepcopy(tail[0]))
    out.append(ast.copy_location(
        ast.Assign(targets=[copy.deepcopy(target)], value=val, lineno=call.lineno), call))
  for s in out:
    ast.fix_missing_locations(s)
  if not out:
    out = [ast.copy_location(ast.Pass(), call)]
  return out


def callee_name(call):
  f = call.func
  if isinstance(f, ast.Name):
    return f.id
  if isinstance(f, ast.Attribute) and isinstance(f.value, ast.Name) and f.value.id == "self":
    return f.attr
  return None


def inline_local_calls(mod, fn, depth=2, cls=None, only=None, skip=()):
  """A deep copy of `fn` in which statement-level calls of module-local helper
  functions are replaced by the helper's body (parameters renamed to the
  argument names / bound by a prelude assignment, colliding helper locals
  renamed `<helper>__<name>`), `depth` levels deep:

      f(a, b)          helper without `return <value>` and without early return
      x = f(a, b)      helper whose only return is its last statement
      return f(a, b)   any helper (its returns become the caller's)

  Calls that do not fit (or whose helper is named in `skip`: anchors a rule
  looks for as calls) are left alone.  Returns (new_fn, parent_map,
  inlined: list of helper names).  Line numbers of inlined statements are the
  helper's own."""
  if cls is None:
    cls = class_of(mod, fn)
  new = copy.deepcopy(fn)
  inlined = []

  def expand_stmt(st, names, level):
    call = mode = target = None
    if isinstance(st, ast.Expr) and isinstance(st.value, ast.Call):
      call, mode = st.value, "expr"
    elif isinstance(st, ast.Assign) and len(st.targets) == 1 and isinstance(st.value, ast.Call) \
        and isinstance(st.targets[0], (ast.Name, ast.Tuple)):
      call, mode, target = st.value, "assign", st.targets[0]
    elif isinstance(st, ast.Return) and isinstance(st.value, ast.Call):
      call, mode = st.value, "tail"
    if call is None or level <= 0:
      return None
    callee = callee_of(mod, call, cls, within=fn)
    if callee is None or callee is fn or (only is not None and callee.name not in only) \
        or callee.name in skip:
      return None
    is_method = isinstance(call.func, ast.Attribute)
    try:
      out = _expand(mod, callee, call, names, is_method, mode, target)
    except NotInlinable:
      return None
    inlined.append(callee.name)
    return out

  def do_block(stmts, level):
    res = []
    for st in stmts:
      names = all_names(new)
      rep = expand_stmt(st, names, level)
      if rep is not None:
        res.extend(do_block(rep, level - 1))
        continue
      for fld in ("body", "orelse", "finalbody"):
        blk = getattr(st, fld, None)
        if isinstance(blk, list) and blk and isinstance(blk[0], ast.stmt) \
            and not isinstance(st, _SCOPES):
          setattr(st, fld, do_block(blk, level))
      for h in getattr(st, "handlers", []) or []:
        h.body = do_block(h.body, level)
      for c in getattr(st, "cases", []) or []:
        c.body = do_block(c.body, level)
      res.append(st)
    return res

  new.body = do_block(new.body, depth)
  return new, parent_map(new), inlined


# -- boolean formulas ----------------------------------------------------------------

class NotAPredicate(Exception):
  pass


def _const(b):
  return ("const", bool(b))


class _Subst(ast.NodeTransformer):
  def __init__(self, env):
    self.env = env

  def visit_Name(self, node):
    if isinstance(node.ctx, ast.Load) and node.id in self.env:
      return copy.deepcopy(self.env[node.id])
    return node


def _subst(expr, env):
  if not env:
    return expr
  shadow = set()
  for n in ast.walk(expr):
    if isinstance(n, ast.comprehension):
      shadow |= {x.id for x in ast.walk(n.target) if isinstance(x, ast.Name)}
    elif isinstance(n, ast.Lambda):
      shadow |= {x.arg for x in ast.walk(n.args) if isinstance(x, ast.arg)}
    elif isinstance(n, ast.NamedExpr):
      shadow.add(n.target.id)
  if shadow & set(env):
    raise NotAPredicate("a substituted name is re-bound inside the expression")
  return _Subst(env).visit(copy.deepcopy(expr))


_NEG = {ast.IsNot: ast.Is, ast.NotIn: ast.In, ast.NotEq: ast.Eq}


def bool_formula(mod, expr, env=None, depth=2, cls=None):
  """Formula of `expr` in boolean context.

  ("const", b) | ("atom", key, node) | ("not", f) | ("and", [f..]) |
  ("or", [f..]) | ("ite", c, a, b).  Atoms are opaque sub-expressions keyed by
  their source text after substituting helper parameters by the caller's
  arguments; `a is not b`, `a not in b`, `a != b` are the negated atoms of the
  positive spelling.  Calls of module-local predicate helpers (bodies made of
  `if`/`return`, once-bound pure locals) are inlined `depth` levels.  All atoms
  are assumed side-effect free."""
  env = env or {}
  e = expr
  if isinstance(e, ast.BoolOp):
    return ("and" if isinstance(e.op, ast.And) else "or",
            [bool_formula(mod, v, env, depth, cls) for v in e.values])
  if isinstance(e, ast.UnaryOp) and isinstance(e.op, ast.Not):
    return ("not", bool_formula(mod, e.operand, env, depth, cls))
  if isinstance(e, ast.IfExp):
    return ("ite", bool_formula(mod, e.test, env, depth, cls),
            bool_formula(mod, e.body, env, depth, cls),
            bool_formula(mod, e.orelse, env, depth, cls))
  if isinstance(e, ast.Constant):
    return _const(e.value)
  if isinstance(e, ast.Call) and dotted(e.func) == "bool" and len(e.args) == 1 and not e.keywords:
    return bool_formula(mod, e.args[0], env, depth, cls)
  if isinstance(e, ast.Compare) and len(e.ops) == 1 and type(e.ops[0]) in _NEG:
    pos = ast.Compare(left=e.left, ops=[_NEG[type(e.ops[0])]()], comparators=e.comparators)
    ast.copy_location(pos, e)
    return ("not", bool_formula(mod, pos, env, depth, cls))
  if isinstance(e, ast.Name) and e.id in env:
    return bool_formula(mod, env[e.id], {}, depth, cls)
  if isinstance(e, ast.Call) and depth > 0:
    callee = callee_of(mod, e, cls)
    if callee is not None:
      try:
        pairs = _bind(callee, e, isinstance(e.func, ast.Attribute))
        inner_env = {p: _subst(v, env) for p, v in pairs}
        return _body_formula(mod, callee, inner_env, depth - 1, class_of(mod, callee) or cls)
      except (NotInlinable, NotAPredicate):
        pass
  node = _subst(e, env)
  return ("atom", src(node), node)


def _body_formula(mod, fn, env, depth, cls):
  if not isinstance(fn, ast.FunctionDef) or fn.decorator_list:
    raise NotAPredicate("decorated / async")
  stores = {}
  for n in walk_scope(fn):
    if isinstance(n, ast.Name) and isinstance(n.ctx, (ast.Store, ast.Del)):
      stores[n.id] = stores.get(n.id, 0) + 1
  if any(p in stores for p in env):
    raise NotAPredicate("parameter re-bound")

  def block(stmts, env):
    if not stmts:
      return _const(False)          # falls off the end: None
    s, rest = stmts[0], stmts[1:]
    if isinstance(s, ast.Pass) or (isinstance(s, ast.Expr) and isinstance(s.value, ast.Constant)):
      return block(rest, env)
    if isinstance(s, ast.Return):
      return bool_formula(mod, s.value, env, depth, cls) if s.value is not None else _const(False)
    if isinstance(s, ast.If):
      return ("ite", bool_formula(mod, s.test, env, depth, cls),
              block(list(s.body) + rest, env), block(list(s.orelse) + rest, env))
    if isinstance(s, ast.Assign) and len(s.targets) == 1 and isinstance(s.targets[0], ast.Name) \
        and stores.get(s.targets[0].id) == 1 and _pure(s.value):
      env2 = dict(env)
      env2[s.targets[0].id] = _subst(s.value, env)
      return block(rest, env2)
    raise NotAPredicate(f"statement `{src(s)[:40]}`")
  return block(list(fn.body), dict(env))


def _pure(e):
  """Expression without calls other than isinstance/len/bool (no effects)."""
  for n in ast.walk(e):
    if isinstance(n, ast.Call) and dotted(n.func) not in ("isinstance", "len", "bool"):
      if isinstance(n.func, ast.Attribute) and not n.args and not n.keywords:
        continue   # flag helper style `x.pred()`
      return False
    if isinstance(n, (ast.NamedExpr, ast.Yield, ast.YieldFrom, ast.Await, ast.Lambda)):
      return False
  return True


def formula_atoms(f, out=None):
  """key -> node of every atom, in first-occurrence order."""
  out = {} if out is None else out
  k = f[0]
  if k == "atom":
    out.setdefault(f[1], f[2])
  elif k == "not":
    formula_atoms(f[1], out)
  elif k in ("and", "or"):
    for x in f[1]:
      formula_atoms(x, out)
  elif k == "ite":
    for x in f[1:]:
      formula_atoms(x, out)
  return out


def eval_formula(f, val):
  k = f[0]
  if k == "const":
    return f[1]
  if k == "atom":
    return val[f[1]]
  if k == "not":
    return not eval_formula(f[1], val)
  if k == "and":
    return all(eval_formula(x, val) for x in f[1])
  if k == "or":
    return any(eval_formula(x, val) for x in f[1])
  if k == "ite":
    return eval_formula(f[2], val) if eval_formula(f[1], val) else eval_formula(f[3], val)
  raise AssertionError(k)


def assignments(keys, fixed=None, limit=14):
  """Every truth assignment of `keys` that agrees with `fixed`."""
  fixed = fixed or {}
  free = [k for k in keys if k not in fixed]
  if len(free) > limit:
    raise AnalysisError(f"predicate with {len(free)} free atoms is too large to enumerate")
  for bits in itertools.product((False, True), repeat=len(free)):
    val = dict(fixed)
    val.update(zip(free, bits))
    yield val


def forces_true(f, key, keys=None):
  """`key` alone makes the predicate true, whatever the other atoms are."""
  keys = list(formula_atoms(f)) if keys is None else keys
  return key in keys and all(eval_formula(f, v) for v in assignments(keys, {key: True}))


# -- aliases -------------------------------------------------------------------------

def resolve_aliases(fn, expr):
  """`expr` with once-bound local aliases of attribute paths substituted:
  `xs = self._xs` (single binding of xs in fn, `self._xs` never assigned in fn)
  makes `xs[-1]` read `self._xs[-1]`.  Mutation through the alias is mutation
  of the same object, so reads through either spelling agree."""
  stores = {}
  for n in walk_scope(fn):
    if isinstance(n, ast.Name) and isinstance(n.ctx, (ast.Store, ast.Del)):
      stores[n.id] = stores.get(n.id, 0) + 1
  params = {a.arg for a in ast.walk(fn.args) if isinstance(a, ast.arg)}
  assigned_paths = {dotted(t) for n in walk_scope(fn)
                    if isinstance(n, (ast.Assign, ast.AugAssign, ast.AnnAssign))
                    for t in (n.targets if isinstance(n, ast.Assign) else [n.target])
                    if isinstance(t, ast.Attribute)}
  env = {}
  for n in walk_scope(fn):
    if isinstance(n, ast.Assign) and len(n.targets) == 1 and isinstance(n.targets[0], ast.Name):
      nm = n.targets[0].id
      d = dotted(n.value)
      if stores.get(nm) == 1 and nm not in params and d and isinstance(n.value, ast.Attribute) \
          and d not in assigned_paths and d.split(".")[0] not in stores:
        env[nm] = n.value
  if not env:
    return expr
  try:
    return _subst(expr, env)
  except NotAPredicate:
    return expr


# -- VirtualMachine dispatch ---------------------------------------------------------

def dispatch_prefix(ctx):
  """The handler-name prefix of VirtualMachine.run_instruction's dispatch.

  Like rules/_opcodes.dispatch_prefix (`getattr(self, f"<prefix>{op.name}"[,
  default])` with `op` the opcode parameter), but the lookup may also sit in a
  method of the VirtualMachine that run_instruction calls as
  `self.<helper>(.., op, ..)` (two levels), `op` being followed into the
  helper's parameter.  Exactly one such lookup must exist."""
  from rules import _opcodes as O
  from sa.pyindex import get_module
  mod = get_module(ctx, O.VM)
  methods, _ = O.vm_methods(ctx)
  fn = mod.func("VirtualMachine.run_instruction")
  found = []
  seen = set()

  def scan(f, opnames, depth):
    if (f, tuple(sorted(opnames))) in seen:
      return
    seen.add((f, tuple(sorted(opnames))))
    selfname = f.args.args[0].arg if f.args.args else None
    for n in ast.walk(f):
      if not isinstance(n, ast.Call):
        continue
      if dotted(n.func) == "getattr" and len(n.args) >= 2 and dotted(n.args[0]) == selfname \
          and isinstance(n.args[1], ast.JoinedStr):
        js = n.args[1]
        if len(js.values) == 2 and isinstance(js.values[0], ast.Constant) and \
            isinstance(js.values[1], ast.FormattedValue) and \
            dotted(js.values[1].value) in {f"{p}.name" for p in opnames}:
          found.append(js.values[0].value)
      elif depth > 0 and isinstance(n.func, ast.Attribute) and dotted(n.func.value) == selfname \
          and isinstance(methods.get(n.func.attr), ast.FunctionDef):
        callee = methods[n.func.attr]
        try:
          pairs = _bind(callee, n, True)
        except NotInlinable:
          continue
        inner = {p for p, v in pairs if isinstance(v, ast.Name) and v.id in opnames}
        stored = {x.id for x in ast.walk(callee) if isinstance(x, ast.Name)
                  and isinstance(x.ctx, ast.Store)}
        inner -= stored
        if inner:
          scan(callee, inner, depth - 1)

  params = [a.arg for a in fn.args.args]
  stored = {x.id for x in ast.walk(fn) if isinstance(x, ast.Name) and isinstance(x.ctx, ast.Store)}
  scan(fn, set(params[1:]) - stored, 2)
  if len(found) != 1:
    raise AnalysisError(
        f"{O.VM}: run_instruction's dispatch `getattr(self, f\"byte_{{op.name}}\")` "
        f"not found (matches: {found})")
  return found[0]


# -- small path-enumerating interpreter for list-building code ------------------------

class NotUnderstood(Exception):
  pass


def record_fields(mod, name):
  """The field names, in declaration order, of the module-local record class
  `name`: a `@dataclasses.dataclass(...)` class without bases or a direct
  `typing.NamedTuple` subclass, whose generated constructor takes exactly its
  annotated fields (no __init__/__new__/__post_init__, no init=False / kw_only /
  ClassVar / InitVar / field(...) specifications).  None when `name` is not
  such a class (the caller then treats the call as opaque)."""
  node = mod.classes.get(name)
  if node is None or not isinstance(node, ast.ClassDef):
    return None
  binds = [n for n in ast.walk(mod.tree) if (isinstance(n, ast.Name) and n.id == name
                                             and isinstance(n.ctx, (ast.Store, ast.Del)))
           or (isinstance(n, _FUNCS + (ast.ClassDef,)) and n.name == name)]
  if len(binds) != 1:
    return None
  decos = [dotted(d.func if isinstance(d, ast.Call) else d) for d in node.decorator_list]
  bases = [dotted(b) for b in node.bases]
  if node.keywords:
    return None
  if decos and all(d in ("dataclasses.dataclass", "dataclass") for d in decos) and len(decos) == 1 \
      and not bases:
    d = node.decorator_list[0]
    if isinstance(d, ast.Call) and (d.args or any(
        k.arg not in ("frozen", "eq", "order", "repr", "unsafe_hash", "slots") for k in d.keywords)):
      return None
  elif not decos and bases in (["NamedTuple"], ["typing.NamedTuple"]):
    pass
  else:
    return None
  fields = []
  for st in node.body:
    if isinstance(st, ast.AnnAssign):
      if not isinstance(st.target, ast.Name) or st.value is not None and isinstance(st.value, ast.Call):
        return None
      if any(isinstance(n, ast.Name) and n.id in ("ClassVar", "InitVar", "KW_ONLY")
             or isinstance(n, ast.Attribute) and n.attr in ("ClassVar", "InitVar", "KW_ONLY")
             for n in ast.walk(st.annotation)) or isinstance(st.annotation, ast.Constant):
        return None
      fields.append(st.target.id)
    elif isinstance(st, _FUNCS):
      if st.name in ("__init__", "__new__", "__post_init__", "__getattribute__", "__getattr__") \
          or st.name in fields:
        return None
    elif isinstance(st, ast.Expr) and isinstance(st.value, ast.Constant):
      continue
    else:
      return None
  if not fields or len(set(fields)) != len(fields):
    return None
  return fields


def record_loop_roles(loop, fields):
  """For `for t in <records>:` (fields = the record's three fields in
  declaration order): the roles the fields play in the loop, decided by use -
  the single get_attribute call looks `t.<method field>` up on
  `t.<left field>.data`; the remaining field is the right operand.  Returns
  the indices (left, right, method) into `fields`, or a problem text."""
  if not isinstance(loop.target, ast.Name) or len(fields) != 3:
    return "the records are not bound to one loop variable of three fields"
  t = loop.target.id
  if any(isinstance(n, ast.Name) and n.id == t and isinstance(n.ctx, (ast.Store, ast.Del))
         for st in loop.body for n in ast.walk(st)):
    return f"the loop variable `{t}` is re-bound in the loop"
  calls = [c for st in loop.body for c in ast.walk(st) if isinstance(c, ast.Call)
           and isinstance(c.func, ast.Attribute) and c.func.attr == "get_attribute"]
  if len(calls) != 1 or calls[0].keywords or len(calls[0].args) < 3:
    return "the loop does not make exactly one positional get_attribute call"
  got = (src(calls[0].args[1]), src(calls[0].args[2]))
  left = [i for i, f in enumerate(fields) if got[0] == f"{t}.{f}.data"]
  meth = [i for i, f in enumerate(fields) if got[1] == f"{t}.{f}"]
  if len(left) != 1 or len(meth) != 1 or left == meth:
    return (f"get_attribute looks {got[1]} up on {got[0]}, expected {t}.<field> on "
            f"{t}.<another field>.data")
  right = ({0, 1, 2} - {left[0], meth[0]}).pop()
  return (left[0], right, meth[0])


class ListPaths:
  """Enumerates, path by path, the list a piece of straight-line / branching
  code builds: `xs = [a]; if c: xs.append(b); if d: xs.reverse()`,
  `if not c: return [a]` ... `return [b, a]`, also through module-local helper
  functions (`for t in _order(x, y): ...`).

  Values are ("list", items) / ("tuple", texts) / ("sym", node).  A path is a
  tuple of (condition text, polarity) with `not` folded into the polarity;
  helper parameters are substituted by the caller's argument expressions, so
  all texts are in the root function's vocabulary.  Anything else that touches
  a tracked list raises NotUnderstood (callers turn it into AnalysisError)."""

  _MUTATORS = ("append", "insert", "reverse", "extend", "clear")

  def __init__(self, mod, cls=None, depth=2):
    self.mod, self.cls, self.depth = mod, cls, depth
    self.records = {}     # record class name -> its fields, for every record evaluated

  # -- public ------------------------------------------------------------------
  def at_loop(self, fn, loop):
    """[(path, value)] of `loop.iter` for every path of fn that reaches `loop`
    (a statement of fn's own body)."""
    if loop not in fn.body:
      raise NotUnderstood("the loop is not a top-level statement of the function")
    env = {p: ("sym", ast.Name(id=p, ctx=ast.Load())) for p in params_of(fn)}
    out = []
    for kind, (env2, path), _ in self._run(fn.body, (env, ()), loop, 0, True):
      if kind != "stop":
        continue
      for path2, val in self._eval_forking(loop.iter, env2, path, 0):
        out.append((path2, val))
    return out

  # -- evaluation ----------------------------------------------------------------
  def _node(self, e, env):
    m = {k: v[1] for k, v in env.items() if v[0] == "sym"}
    for n in ast.walk(e):
      if isinstance(n, ast.Name) and n.id in env and env[n.id][0] != "sym" \
          and isinstance(n.ctx, ast.Load):
        raise NotUnderstood(f"`{src(e)[:40]}` reads the container `{n.id}`")
    try:
      return _subst(e, m)
    except NotAPredicate as ex:
      raise NotUnderstood(str(ex)) from ex

  def _eval(self, e, env):
    if isinstance(e, ast.List):
      if any(isinstance(x, ast.Starred) for x in e.elts):
        raise NotUnderstood("starred list element")
      return ("list", tuple(self._eval(x, env) for x in e.elts))
    if isinstance(e, ast.Tuple):
      if any(isinstance(x, ast.Starred) for x in e.elts):
        raise NotUnderstood("starred tuple element")
      return ("tuple", tuple(src(self._node(x, env)) for x in e.elts))
    if isinstance(e, ast.Name) and e.id in env:
      return env[e.id]
    if isinstance(e, ast.Call) and isinstance(e.func, ast.Name) and e.func.id not in env:
      fields = record_fields(self.mod, e.func.id)
      if fields is not None:
        # a module-local frozen record (dataclass / NamedTuple) constructed
        # positionally or by keyword is the tuple of its fields in declaration order
        if any(isinstance(a, ast.Starred) for a in e.args) or any(k.arg is None for k in e.keywords) \
            or len(e.args) > len(fields):
          raise NotUnderstood(f"`{src(e)[:50]}`: starred / surplus record arguments")
        given = dict(zip(fields, e.args))
        for k in e.keywords:
          if k.arg not in fields or k.arg in given:
            raise NotUnderstood(f"`{src(e)[:50]}`: `{k.arg}` is not a free field of {e.func.id}")
          given[k.arg] = k.value
        if set(given) != set(fields):
          raise NotUnderstood(f"`{src(e)[:50]}` does not give every field of {e.func.id}")
        self.records.setdefault(e.func.id, tuple(fields))
        return ("tuple", tuple(src(self._node(given[f], env)) for f in fields))
    return ("sym", self._node(e, env))

  def _eval_forking(self, e, env, path, level):
    """[(path, value)]: like _eval, a call of a module-local helper forks over
    the helper's return paths."""
    if isinstance(e, ast.Call) and level < self.depth:
      callee = callee_of(self.mod, e, self.cls)
      if callee is not None:
        try:
          pairs = _bind(callee, e, isinstance(e.func, ast.Attribute))
          cenv = {}
          for p, v in pairs:
            val = self._eval(v, env)
            if val[0] == "list":
              raise NotUnderstood("a list is passed to a helper")
            cenv[p] = val
          outs = []
          for kind, (_, path2), val in self._run(callee.body, (cenv, path), None, level + 1, False):
            if kind == "return":
              outs.append((path2, val))
            elif kind == "end":
              outs.append((path2, ("sym", ast.Constant(value=None))))
          return outs
        except (NotInlinable, NotUnderstood):
          pass
    return [(path, self._eval(e, env))]

  def _cases(self, t, want, env):
    """The ways `t` can come out `want`: a list of conjunctions of atomic
    (text, polarity) facts, following short-circuit evaluation (`a and b` is
    false when a is false, or a is true and b is false).  A constant test
    gives the pseudo-atom (None, <whether it comes out as wanted>)."""
    if isinstance(t, ast.UnaryOp) and isinstance(t.op, ast.Not):
      return self._cases(t.operand, not want, env)
    if isinstance(t, ast.BoolOp):
      conj = isinstance(t.op, ast.And)
      if conj == want:       # all operands must come out `want`
        out = [[]]
        for v in t.values:
          out = [a + b for a in out for b in self._cases(v, want, env)]
        return out
      out = []               # the first operand that comes out `want` decides
      prefix = [[]]
      for v in t.values:
        out += [a + b for a in prefix for b in self._cases(v, want, env)]
        prefix = [a + b for a in prefix for b in self._cases(v, not want, env)]
      return out
    if isinstance(t, ast.Constant):
      return [[(None, bool(t.value) == want)]]
    return [[(src(self._node(t, env)), want)]]

  # -- statements ------------------------------------------------------------------
  def _run(self, stmts, state, stop, level, root):
    """Yields (kind, (env, path), value) with kind stop / return / end."""
    if not stmts:
      yield ("end", state, None)
      return
    st, rest = stmts[0], stmts[1:]
    env, path = state
    lists = {k for k, v in env.items() if v[0] == "list"}

    def mentions(node):
      return any(isinstance(n, ast.Name) and n.id in lists for n in ast.walk(node))

    if st is stop:
      yield ("stop", state, None)
      return
    if isinstance(st, ast.Return):
      if st.value is None:
        yield ("return", state, ("sym", ast.Constant(value=None)))
      else:
        for path2, val in self._eval_forking(st.value, env, path, level):
          yield ("return", (env, path2), val)
      return
    if isinstance(st, ast.Raise):
      return
    if isinstance(st, ast.If):
      for branch, want in ((st.body, True), (st.orelse, False)):
        for case in self._cases(st.test, want, env):
          p2 = path
          feasible = True
          for text, truth in case:
            if text is None:            # constant test
              feasible = feasible and truth
            elif (text, not truth) in p2:
              feasible = False
            elif (text, truth) not in p2:
              p2 = p2 + ((text, truth),)
          if not feasible:
            continue
          for kind, s2, val in self._run(list(branch), (dict(env), p2), stop, level, root):
            if kind == "end":
              yield from self._run(rest, s2, stop, level, root)
            else:
              yield (kind, s2, val)
      return
    if isinstance(st, ast.Assign) and len(st.targets) == 1 and isinstance(st.targets[0], ast.Name):
      name = st.targets[0].id
      for path2, val in self._eval_forking(st.value, env, path, level):
        if isinstance(st.value, ast.Name) and val[0] == "list":
          raise NotUnderstood(f"the list `{st.value.id}` gets a second name")
        env2 = dict(env)
        if val[0] == "sym" and root:
          val = ("sym", ast.Name(id=name, ctx=ast.Load()))   # root locals stay symbols
        env2[name] = val
        yield from self._run(rest, (env2, path2), stop, level, root)
      return
    if isinstance(st, ast.Expr) and isinstance(st.value, ast.Call) \
        and isinstance(st.value.func, ast.Attribute) and isinstance(st.value.func.value, ast.Name) \
        and st.value.func.value.id in lists:
      c = st.value
      name, meth = c.func.value.id, c.func.attr
      items = list(env[name][1])
      if meth == "append" and len(c.args) == 1 and not c.keywords:
        items.append(self._eval(c.args[0], env))
      elif meth == "insert" and len(c.args) == 2 and isinstance(c.args[0], ast.Constant) \
          and c.args[0].value == 0:
        items.insert(0, self._eval(c.args[1], env))
      elif meth == "reverse" and not c.args:
        items.reverse()
      elif meth == "extend" and len(c.args) == 1 and isinstance(c.args[0], ast.List):
        items.extend(self._eval(c.args[0], env)[1])
      elif meth == "clear" and not c.args:
        items = []
      else:
        raise NotUnderstood(f"`{src(c)[:50]}` on a tracked list")
      env2 = dict(env)
      env2[name] = ("list", tuple(items))
      yield from self._run(rest, (env2, path), stop, level, root)
      return
    if isinstance(st, ast.AugAssign) and isinstance(st.target, ast.Name) and st.target.id in lists:
      if isinstance(st.op, ast.Add) and isinstance(st.value, ast.List):
        env2 = dict(env)
        env2[st.target.id] = ("list", env[st.target.id][1] + self._eval(st.value, env)[1])
        yield from self._run(rest, (env2, path), stop, level, root)
        return
      raise NotUnderstood(f"`{src(st)[:50]}` on a tracked list")
    # anything else must leave the tracked lists alone and must not leave the function
    if mentions(st):
      raise NotUnderstood(f"`{src(st)[:50]}` uses a tracked list")
    if isinstance(st, (ast.For, ast.While, ast.With, ast.Try, ast.Match, ast.AsyncFor, ast.AsyncWith)):
      if any(isinstance(n, (ast.Return, ast.Raise)) for n in walk_scope(st)) and not root:
        raise NotUnderstood(f"compound statement at line {st.lineno} may leave the helper")
      if root and any(isinstance(n, ast.Return) for n in walk_scope(st)) and stop is not None \
          and st.lineno < stop.lineno:
        pass   # paths that return early never reach the loop; the others continue
    env2 = dict(env)
    for n in walk_scope(st) if not isinstance(st, _SCOPES) else ():
      if isinstance(n, ast.Name) and isinstance(n.ctx, ast.Store):
        env2[n.id] = ("sym", ast.Name(id=n.id, ctx=ast.Load()))
    if isinstance(st, _SCOPES[:2] + (ast.ClassDef,)):
      env2[st.name] = ("sym", ast.Name(id=st.name, ctx=ast.Load()))
    yield from self._run(rest, (env2, path), stop, level, root)
