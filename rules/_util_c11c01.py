"""Helpers shared by rules/c11*.py and rules/c01*.py (robustness to
behaviour-preserving refactorings).

1. `normalized_function(mod, name)`: a *semantics-preserving* rewriting of one
   module-level function into a form the flow rules understand: calls to
   module-local helper functions in statement position are inlined (parameters
   bound in argument order, helper locals renamed apart, `return` turned into
   the assignment/return/expression of the call statement), a conditional
   expression that selects a helper call becomes an `if` statement, and a loop
   over a literal tuple (also the `*args` tuple of an inlined helper) is
   unrolled.  Anything outside that fragment is an AnalysisError - a helper
   call that is left in place would be invisible to the rules.  If nothing
   needs rewriting the original module object is returned unchanged.
2. `methods_mro(mod, cls)`: methods of a class resolved through the
   module-local part of its MRO (methods moved into a private base / mixin).
3. `implied(test, pol, atom)`: does `test` evaluating to `pol` decide an atom.
4. `module_world(...)`: a world for rules/_minieval.py in which the module's own
   functions are callable (evaluated from their AST), for small-scope
   exhaustive evaluation of pure helpers.

Nothing from /repo is imported or executed.
"""
from __future__ import annotations

import ast
import copy

from sa.core import AnalysisError
from sa.pyindex import PyModule, src

_FUNCS = (ast.FunctionDef, ast.AsyncFunctionDef)
_SCOPES = _FUNCS + (ast.ClassDef, ast.Lambda)


# -- module-local MRO ---------------------------------------------------------------

def _c3_merge(seqs):
  seqs = [list(s) for s in seqs if s]
  out = []
  while seqs:
    for s in seqs:
      head = s[0]
      if not any(head in t[1:] for t in seqs):
        break
    else:
      raise AnalysisError("inconsistent module-local class hierarchy")
    out.append(head)
    seqs = [[x for x in s if x != head] for s in seqs]
    seqs = [s for s in seqs if s]
  return out


def local_mro(mod, cls, _seen=()):
  """[cls, ...module-local ancestors in MRO order].  Bases that are not classes
  of this module are opaque (they come after every local class only if they
  are listed last: otherwise AnalysisError, see methods_mro)."""
  if cls in _seen:
    raise AnalysisError(f"{mod.rel}: class {cls} inherits from itself")
  node = mod.cls(cls)
  bases = [b.id for b in node.bases
           if isinstance(b, ast.Name) and b.id in mod.classes]
  return [cls] + _c3_merge(
      [local_mro(mod, b, _seen + (cls,))[:] for b in bases] + [bases])


def methods_mro(mod, cls):
  """name -> FunctionDef, resolved through the module-local MRO of `cls`.  A
  foreign base listed *before* a local base could override what the local base
  defines: that is outside the model (AnalysisError)."""
  out = {}
  for c in local_mro(mod, cls):
    seen_foreign = False
    for b in mod.cls(c).bases:
      is_local = isinstance(b, ast.Name) and b.id in mod.classes
      if is_local and seen_foreign:
        raise AnalysisError(
            f"{mod.rel}: class {c} lists a foreign base before the "
            f"module-local base {b.id}: method resolution is not modelled")
      seen_foreign = seen_foreign or not is_local
    for name, fn in mod.methods(c).items():
      out.setdefault(name, fn)
  return out


def method_owner(mod, cls, name):
  for c in local_mro(mod, cls):
    if name in mod.methods(c):
      return c
  return None


# -- implication of an atom by a path condition ------------------------------------------

def implied(test, pol, is_atom):
  """`test` evaluated to truth value `pol`.  -> True (the atom holds), False
  (the atom does not hold) or None (undetermined).  `is_atom(node)` recognises
  the atom; `not`, `and` (when true) and `or` (when false) are looked through."""
  while isinstance(test, ast.UnaryOp) and isinstance(test.op, ast.Not):
    test, pol = test.operand, not pol
  if is_atom(test):
    return pol
  if isinstance(test, ast.BoolOp):
    conj = isinstance(test.op, ast.And)
    if conj == pol:     # `a and b` is true / `a or b` is false: every operand decided
      for v in test.values:
        r = implied(v, pol, is_atom)
        if r is not None:
          return r
  return None


# -- statement order ----------------------------------------------------------------------

def stmt_order(fn):
  """stmt -> rank in a pre-order walk of fn's body (source order of the
  statements, also for statements inlined from a helper)."""
  order = {}

  def walk(stmts):
    for s in stmts:
      order[s] = len(order)
      for fld in ("body", "orelse", "finalbody"):
        blk = getattr(s, fld, None)
        if isinstance(blk, list) and not isinstance(s, _SCOPES):
          walk(blk)
      for h in getattr(s, "handlers", []) or []:
        order[h] = len(order)
        walk(h.body)
  walk(fn.body)
  return order


# -- inlining module-local helpers ------------------------------------------------------------

def _stored_names(nodes):
  out = set()
  for top in nodes:
    for n in ast.walk(top):
      if isinstance(n, ast.Name) and isinstance(n.ctx, (ast.Store, ast.Del)):
        out.add(n.id)
      elif isinstance(n, ast.ExceptHandler) and n.name:
        out.add(n.name)
      elif isinstance(n, (ast.Import, ast.ImportFrom)):
        for a in n.names:
          out.add((a.asname or a.name).split(".")[0])
  return out


def _param_names(fn):
  a = fn.args
  out = [p.arg for p in a.posonlyargs + a.args + a.kwonlyargs]
  if a.vararg:
    out.append(a.vararg.arg)
  if a.kwarg:
    out.append(a.kwarg.arg)
  return out


def _has_return(node):
  todo = [node]
  while todo:
    n = todo.pop()
    if isinstance(n, ast.Return):
      return True
    if isinstance(n, _SCOPES) and n is not node:
      continue
    todo.extend(ast.iter_child_nodes(n))
  return False


class _Subst(ast.NodeTransformer):
  def __init__(self, rename, subst):
    self.rename = rename
    self.subst = subst

  def visit_Name(self, node):
    if node.id in self.subst and isinstance(node.ctx, ast.Load):
      return ast.copy_location(copy.deepcopy(self.subst[node.id]), node)
    if node.id in self.rename:
      return ast.copy_location(ast.Name(id=self.rename[node.id], ctx=node.ctx), node)
    return node

  def visit_ExceptHandler(self, node):
    self.generic_visit(node)
    if node.name in self.rename:
      node.name = self.rename[node.name]
    return node


class _Normalizer:
  MAX_DEPTH = 3

  def __init__(self, mod, fn):
    self.mod = mod
    self.fn = fn
    self.what = fn.name
    self.changed = False
    self.n = 0
    self.caller_locals = set(_param_names(fn)) | _stored_names(fn.body)
    self.used = {n.id for n in ast.walk(mod.tree) if isinstance(n, ast.Name)}
    self.inlined = []

  # helpers ..................................................................
  def helper(self, call):
    f = call.func
    if isinstance(f, ast.Name) and f.id in self.mod.functions and \
        f.id not in self.caller_locals and f.id != self.fn.name:
      return self.mod.functions[f.id]
    return None

  def has_helper_call(self, node):
    return any(isinstance(n, ast.Call) and self.helper(n) is not None
               for n in ast.walk(node))

  def refuse(self, node, why):
    raise AnalysisError(
        f"{self.what}: {why}: `{src(node)[:100]}` (a module-local helper "
        "that cannot be inlined would be invisible to the rule)")

  def fresh(self, helper_name, name):
    base = f"_{helper_name.strip('_')}{self.n}_{name}"
    cand = base
    k = 0
    while cand in self.used or cand in self.caller_locals:
      k += 1
      cand = f"{base}_{k}"
    self.used.add(cand)
    return cand

  # blocks ...................................................................
  def block(self, stmts, depth):
    out = []
    for s in stmts:
      out.extend(self.stmt(s, depth))
    return out

  def stmt(self, s, depth):
    if isinstance(s, _SCOPES):
      if self.has_helper_call(s):
        self.refuse(s, "helper call inside a nested definition")
      return [s]
    if isinstance(s, ast.If):
      if self.has_helper_call(s.test):
        self.refuse(s.test, "helper call in a condition")
      s.body = self.block(s.body, depth)
      s.orelse = self.block(s.orelse, depth)
      return [s]
    if isinstance(s, ast.For):
      if self.has_helper_call(s.iter) or self.has_helper_call(s.target):
        self.refuse(s.iter, "helper call in a loop header")
      unrolled = self.unroll(s)
      if unrolled is not None:
        self.changed = True
        return self.block(unrolled, depth)
      s.body = self.block(s.body, depth)
      s.orelse = self.block(s.orelse, depth)
      return [s]
    if isinstance(s, (ast.While, ast.With, ast.Try, ast.AsyncFor, ast.AsyncWith,
                      ast.Match)) or hasattr(ast, "TryStar") and isinstance(
                          s, ast.TryStar):
      heads = [getattr(s, "test", None)] + list(getattr(s, "items", []) or []) \
          + [getattr(s, "subject", None)]
      for h in heads:
        if h is not None and self.has_helper_call(h):
          self.refuse(h, "helper call in a compound-statement header")
      if isinstance(s, ast.Match):
        if self.has_helper_call(s):
          self.refuse(s, "helper call inside a match statement")
        return [s]
      for fld in ("body", "orelse", "finalbody"):
        blk = getattr(s, fld, None)
        if isinstance(blk, list):
          setattr(s, fld, self.block(blk, depth))
      for h in getattr(s, "handlers", []) or []:
        h.body = self.block(h.body, depth)
      return [s]
    # simple statement
    if not self.has_helper_call(s):
      return [s]
    simple_target = isinstance(s, ast.Assign) and len(s.targets) == 1 and \
        isinstance(s.targets[0], ast.Name)
    if simple_target or isinstance(s, (ast.Return, ast.Expr)):
      v = s.value
      if isinstance(v, ast.IfExp) and not self.has_helper_call(v.test):
        new = ast.If(test=v.test, body=[self.with_value(s, v.body)],
                     orelse=[self.with_value(s, v.orelse)])
        ast.copy_location(new, s)
        self.changed = True
        return self.stmt(new, depth)
      if isinstance(v, ast.Call) and self.helper(v) is not None and not any(
          self.has_helper_call(a) for a in list(v.args) + [k.value for k in v.keywords]):
        self.changed = True
        return self.inline(s, v, depth)
    self.refuse(s, "helper call in a position that is not inlined")

  @staticmethod
  def with_value(s, value):
    """The call statement `s` with `value` in place of the call."""
    if isinstance(s, ast.Assign):
      if value is None:
        value = ast.Constant(value=None)
      new = ast.Assign(targets=copy.deepcopy(s.targets), value=value)
    elif isinstance(s, ast.Return):
      new = ast.Return(value=value)
    else:
      new = ast.Expr(value=value) if value is not None else ast.Pass()
    return ast.copy_location(new, s)

  # loops over a literal tuple ......................................................
  def unroll(self, s):
    it = s.iter
    if not (isinstance(it, (ast.Tuple, ast.List)) and isinstance(s.target, ast.Name)
            and not s.orelse
            and not any(isinstance(e, ast.Starred) for e in it.elts)):
      return None
    x = s.target.id
    inner = [n for st in s.body for n in ast.walk(st)]
    if any(isinstance(n, (ast.Break, ast.Continue) + _SCOPES) for n in inner):
      return None
    if any(isinstance(n, ast.Name) and n.id == x and not isinstance(n.ctx, ast.Load)
           for n in inner):
      return None
    loads = [n for n in inner if isinstance(n, ast.Name) and n.id == x]
    # is the single load evaluated exactly once per iteration?
    once = len(loads) == 1 and not any(
        isinstance(n, (ast.For, ast.While, ast.ListComp, ast.SetComp, ast.DictComp,
                       ast.GeneratorExp, ast.IfExp, ast.BoolOp))
        and any(m is loads[0] for m in ast.walk(n)) for n in inner)
    outside = [n for n in ast.walk(self.cur_root) if isinstance(n, ast.Name)
               and n.id == x and not any(n is m for m in inner)
               and n is not s.target]
    if outside:
      return None     # the loop variable is used after the loop
    out = []
    for i, e in enumerate(it.elts):
      body = copy.deepcopy(s.body)
      if once:
        body = [_Subst({}, {x: e}).visit(st) for st in body]
      else:
        name = self.fresh("it", f"{x}{i}")
        out.append(ast.copy_location(ast.Assign(
            targets=[ast.Name(id=name, ctx=ast.Store())], value=copy.deepcopy(e)), s))
        body = [_Subst({x: name}, {}).visit(st) for st in body]
      out.extend(body)
    return out

  # inlining ....................................................................
  def inline(self, s, call, depth):
    h = self.helper(call)
    if depth >= self.MAX_DEPTH:
      self.refuse(call, "helper nesting too deep (or recursive)")
    bad = [n for st in h.body for n in ast.walk(st)
           if isinstance(n, (ast.Yield, ast.YieldFrom, ast.Await, ast.Global,
                             ast.Nonlocal) + _SCOPES)]
    if bad or h.decorator_list or isinstance(h, ast.AsyncFunctionDef) or h.args.kwarg:
      self.refuse(call, f"helper {h.name} is a generator / decorated / has "
                  "nested scopes or **kwargs")
    if any(isinstance(a, ast.Starred) for a in call.args) or \
        any(k.arg is None for k in call.keywords):
      self.refuse(call, "helper called with */** arguments")
    self.n += 1
    a = h.args
    pos = a.posonlyargs + a.args
    given, extra = {}, []
    for i, arg in enumerate(call.args):
      if i < len(pos):
        given[pos[i].arg] = arg
      else:
        extra.append(arg)
    if extra and not a.vararg:
      self.refuse(call, "too many positional arguments")
    by_kw = {p.arg for p in a.args + a.kwonlyargs}
    for k in call.keywords:
      if k.arg not in by_kw or k.arg in given:
        self.refuse(call, f"keyword argument {k.arg} not understood")
      given[k.arg] = k.value
    defaults = dict(zip([p.arg for p in pos][len(pos) - len(a.defaults):], a.defaults))
    defaults.update({p.arg: d for p, d in zip(a.kwonlyargs, a.kw_defaults)
                     if d is not None})
    order = [p.arg for p in pos + a.kwonlyargs]
    for p in order:
      if p not in given:
        d = defaults.get(p)
        if not isinstance(d, ast.Constant):
          self.refuse(call, f"no (constant) value for parameter {p}")
        given[p] = d
    body = copy.deepcopy(h.body)
    if body and isinstance(body[0], ast.Expr) and \
        isinstance(body[0].value, ast.Constant) and isinstance(body[0].value.value, str):
      body = body[1:]
    stored = _stored_names(body)
    params = set(order) | ({a.vararg.arg} if a.vararg else set())
    locals_h = stored | params
    free = {n.id for st in body for n in ast.walk(st)
            if isinstance(n, ast.Name)} - locals_h
    if free & self.caller_locals:
      self.refuse(call, f"helper {h.name} reads globals {sorted(free & self.caller_locals)} "
                  "that are shadowed by locals of the caller")
    rename, subst, pre = {}, {}, []
    # evaluation order of the arguments: positional, then keywords, as written
    names_in_order = [p.arg for p in pos[:len(call.args)]] + [k.arg for k in call.keywords]
    names_in_order += [p for p in order if p not in names_in_order]
    for p in names_in_order:
      val = given[p]
      if p not in stored and isinstance(val, (ast.Name, ast.Constant)):
        subst[p] = val
      else:
        rename[p] = self.fresh(h.name, p)
        pre.append(ast.copy_location(ast.Assign(
            targets=[ast.Name(id=rename[p], ctx=ast.Store())],
            value=copy.deepcopy(val)), s))
    if a.vararg:
      v = a.vararg.arg
      if v in stored:
        self.refuse(call, f"helper {h.name} rebinds *{v}")
      uses = [n for st in body for n in ast.walk(st)
              if isinstance(n, ast.Name) and n.id == v]
      loops = [n for st in body for n in ast.walk(st) if isinstance(n, ast.For)
               and isinstance(n.iter, ast.Name) and n.iter.id == v]
      nested = [l for l in loops for o in ast.walk(ast.Module(body=body, type_ignores=[]))
                if isinstance(o, (ast.For, ast.While)) and o is not l
                and any(m is l for m in ast.walk(o))]
      if len(uses) != 1 or len(loops) != 1 or nested:
        self.refuse(call, f"helper {h.name} uses *{v} other than as the iterable "
                    "of one top-level loop")
      subst[v] = ast.Tuple(elts=[copy.deepcopy(e) for e in extra], ctx=ast.Load())
    for name in sorted(stored - set(rename)):
      rename[name] = self.fresh(h.name, name)
    tr = _Subst(rename, subst)
    body = [tr.visit(st) for st in body]
    body = self.tail(body, s)
    self.inlined.append(h.name)
    saved = self.cur_root
    self.cur_root = ast.Module(body=body, type_ignores=[])
    try:
      body = self.block(body, depth + 1)
    finally:
      self.cur_root = saved
    return pre + body

  def tail(self, stmts, s):
    out = []
    for i, st in enumerate(stmts):
      if isinstance(st, ast.Return):
        out.append(ast.copy_location(self.with_value(s, st.value), st))
        return out
      if _has_return(st):
        if not isinstance(st, ast.If):
          self.refuse(st, "helper returns from inside a loop / with / try block")
        rest = stmts[i + 1:]
        st.body = self.tail(st.body + copy.deepcopy(rest), s)
        st.orelse = self.tail(st.orelse + rest, s)
        out.append(st)
        return out
      out.append(st)
    if not isinstance(s, ast.Expr):
      out.append(self.with_value(s, None))
    return out

  def run(self):
    self.cur_root = self.fn
    self.fn.body = self.block(self.fn.body, 0)
    return self.changed


def synthetic_module(rel, text, tree):
  """A PyModule over an already transformed tree (line numbers of copied nodes
  are those of the original source)."""
  m = PyModule.__new__(PyModule)
  m.rel = rel
  m.text = text
  m.tree = tree
  ast.fix_missing_locations(tree)
  m.parent = {}
  for n in ast.walk(tree):
    for c in ast.iter_child_nodes(n):
      m.parent[c] = n
  m.classes, m.functions, m.assigns, m.imports = {}, {}, {}, {}
  m._index_body(tree.body)   # pylint: disable=protected-access
  return m


def normalized_function(mod, name):
  """-> (module, inlined helper names).  The module is `mod` itself when the
  function needs no rewriting."""
  fn = mod.func(name)
  probe = _Normalizer(mod, fn)
  needs = probe.has_helper_call(fn) or any(
      isinstance(n, ast.For) and isinstance(n.iter, (ast.Tuple, ast.List))
      for n in ast.walk(fn))
  if not needs:
    return mod, []
  tree = copy.deepcopy(mod.tree)
  shadow = synthetic_module(mod.rel, mod.text, tree)
  norm = _Normalizer(shadow, shadow.func(name))
  if not norm.run():
    return mod, []
  return synthetic_module(mod.rel, mod.text, tree), sorted(set(norm.inlined))


# -- literals of a path condition ------------------------------------------------------------

def literals(test, pol):
  """Atoms decided by `test` evaluating to `pol`: [(atom, polarity)].  Looks
  through `not`, a true conjunction and a false disjunction (De Morgan); any
  other operand is an atom of its own."""
  while isinstance(test, ast.UnaryOp) and isinstance(test.op, ast.Not):
    test, pol = test.operand, not pol
  if isinstance(test, ast.BoolOp) and isinstance(test.op, ast.And) == pol:
    out = []
    for v in test.values:
      out.extend(literals(v, pol))
    return out
  return [(test, pol)]


# -- module-local call graph -------------------------------------------------------------------

def reachable_functions(mod, fn, cls=None, depth=3):
  """[fn, ...] plus the module-level functions it calls by plain name and (with
  `cls`) the methods it calls as self.<m>(..), resolved through the local MRO;
  transitively, at most `depth` levels."""
  methods = methods_mro(mod, cls) if cls else {}
  out, todo = [fn], [(fn, 0)]
  while todo:
    f, d = todo.pop()
    if d >= depth:
      continue
    for n in ast.walk(f):
      if not isinstance(n, ast.Call):
        continue
      g = None
      if isinstance(n.func, ast.Name) and n.func.id in mod.functions:
        g = mod.functions[n.func.id]
      elif isinstance(n.func, ast.Attribute) and isinstance(n.func.value, ast.Name) \
          and n.func.value.id == "self" and n.func.attr in methods:
        g = methods[n.func.attr]
      if g is not None and not any(g is x for x in out):
        out.append(g)
        todo.append((g, d + 1))
  return out


def bind_call(fn, call, skip_self=False):
  """param name -> argument node for `call` to `fn` (defaults filled in);
  None when the call uses */** or does not fit the signature."""
  a = fn.args
  pos = a.posonlyargs + a.args
  if skip_self:
    pos = pos[1:]
  if any(isinstance(x, ast.Starred) for x in call.args) or \
      any(k.arg is None for k in call.keywords) or a.vararg or a.kwarg:
    return None
  if len(call.args) > len(pos):
    return None
  out = {p.arg: x for p, x in zip(pos, call.args)}
  names = {p.arg for p in pos + a.kwonlyargs}
  for k in call.keywords:
    if k.arg not in names or k.arg in out:
      return None
    out[k.arg] = k.value
  all_pos = a.posonlyargs + a.args
  defaults = dict(zip([p.arg for p in all_pos][len(all_pos) - len(a.defaults):], a.defaults))
  defaults.update({p.arg: d for p, d in zip(a.kwonlyargs, a.kw_defaults) if d is not None})
  for p in pos + a.kwonlyargs:
    if p.arg not in out:
      if p.arg not in defaults:
        return None
      out[p.arg] = defaults[p.arg]
  return out


# -- a world for rules/_minieval ------------------------------------------------------------------

def module_world(mod, globals_, resolver=None, max_steps=20000):
  """-> call(name, **args): evaluates module-level function `name` of `mod`
  from its AST (rules/_minieval.Interp) in a world where every other
  module-level function of `mod` is callable the same way and `globals_`
  supplies the remaining global names."""
  from rules import _minieval as me

  class Interp(me.Interp):
    """An `Obj` whose kinds start with "closed" models a plain `object()`
    sentinel: reading any attribute of it raises AttributeError, as at run
    time (for other records an unknown attribute is outside the model)."""

    def getattr_(self, v, attr):
      if isinstance(v, me.Obj) and v.kinds[:1] == ("closed",) and \
          attr not in v.attrs and attr not in v.methods:
        raise me.Raised("AttributeError", (attr,))
      return super().getattr_(v, attr)

    def sub(self, fn):
      return Interp(fn, self.globals, self.max_steps, self.resolver)
  world = dict(globals_)

  def wrap(fn):
    def call(*a, **kw):
      params = [p.arg for p in fn.args.posonlyargs + fn.args.args]
      if len(a) > len(params) or set(params[:len(a)]) & set(kw):
        raise me.Outside(f"call of {fn.name} does not fit its signature")
      args = dict(zip(params, a))
      args.update(kw)
      return Interp(fn, world, max_steps, resolver).call(args)
    return call
  for name, fn in mod.functions.items():
    if name not in world and isinstance(fn, ast.FunctionDef):
      world[name] = wrap(fn)

  def run(name, **args):
    return Interp(mod.func(name), world, max_steps, resolver).call(args)
  return run
